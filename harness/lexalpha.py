"""alpha/gamma for the tokenizer: character classes (inputs of the model) and observed tokens."""
from __future__ import annotations

import re

from formulaic.errors import FormulaParsingError
from formulaic.parser.algos.tokenize import tokenize

WORD = re.compile(r"[\.\_\w]")
NUM = re.compile(r"[0-9\.]")
WS = re.compile(r"\s")


def cls_of(ch: str) -> str:
    if WS.match(ch):
        return "ws"
    if WORD.match(ch):
        return "digit" if NUM.match(ch) else "word"
    return "other"


def chars_of(s: str) -> list:
    return [{"c": ch, "cls": cls_of(ch)} for ch in s]


def observe_tokens(s: str) -> dict:
    try:
        toks = [{"x": t.token, "k": t.kind.value if t.kind else "", "s": t.source_start if t.source_start is not None else -1,
                 "e": t.source_end if t.source_end is not None else -1} for t in tokenize(s)]
        return {"err": "", "toks": toks}
    except FormulaParsingError:
        return {"err": "REJECT", "toks": []}
    except Exception as e:  # noqa
        return {"err": "ESCAPED:" + type(e).__name__, "toks": []}
