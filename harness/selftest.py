"""./check selftest - demonstration of the binding between specification and code: a handful of the seeded changes kept under
seeded/ are applied to a scratch worktree of the repository (never to /repo) and the check of their property must report them;
then the same checks must pass on the unchanged tree.  Not a registered check; `python -m harness.seedtest` is the general tool."""
from __future__ import annotations

import json
import subprocess
import sys
from pathlib import Path

ROOT = Path(__file__).resolve().parent.parent
SAMPLE = ["C17-m1", "C19-m1", "C08-m1", "C09-m1", "C16-m1", "C11-m1"]


def main(tier: str = "quick", seed: int = 0) -> int:
    bad = 0
    for name in SAMPLE:
        d = ROOT / "seeded" / name
        subprocess.run([sys.executable, "-m", "harness.seedtest", str(d), "--skip-tests", "--tier", tier], cwd=ROOT, capture_output=True, text=True)
        last = json.loads((d / "meta.json").read_text())["runs"][-1]
        ok = bool(last.get("caught_by"))
        print(f"selftest {name}: {'reported by ' + ','.join(last['caught_by']) if ok else 'NOT REPORTED'}")
        bad += 0 if ok else 1
    for prop in sorted({n.split('-')[0] for n in SAMPLE}):
        p = subprocess.run([str(ROOT / "check"), prop, "--tier", tier, "--seed", str(seed)], cwd=ROOT, capture_output=True, text=True)
        print(f"selftest {prop} on the unchanged tree: exit {p.returncode}")
        bad += 0 if p.returncode == 0 else 1
    return 1 if bad else 0
