"""Run checks against a seeded change (mutant) in a scratch copy of /repo.

usage: python -m harness.seedtest <seeded-dir> [--props C01,C02|all] [--tier quick]
The scratch worktree lives under /var/tmp and is removed afterwards; /repo itself is not touched.
"""
from __future__ import annotations

import argparse
import json
import os
import shutil
import subprocess
import sys
import time
from pathlib import Path

ROOT = Path(__file__).resolve().parent.parent
BASE_TESTS = "2 failed, 503 passed"


def sh(cmd, cwd=None, env=None, timeout=3600):
    p = subprocess.run(cmd, cwd=cwd, env=env, capture_output=True, text=True, timeout=timeout, shell=isinstance(cmd, str))
    return p.returncode, p.stdout + p.stderr


def main():
    ap = argparse.ArgumentParser()
    ap.add_argument("seeded")
    ap.add_argument("--props", default="")
    ap.add_argument("--tier", default="quick")
    ap.add_argument("--skip-tests", action="store_true")
    a = ap.parse_args()
    sd = Path(a.seeded).resolve()
    meta = json.loads((sd / "meta.json").read_text())
    props = [meta["property"]] if not a.props else ([f"C{i:02d}" for i in range(1, 21)] if a.props == "all" else a.props.split(","))
    wt = Path(f"/var/tmp/fvm-{sd.name}-{os.getpid()}")
    sh(["git", "-C", "/repo", "worktree", "remove", "--force", str(wt)])
    rc, out = sh(["git", "-C", "/repo", "worktree", "add", "--detach", str(wt), "HEAD"])
    if rc:
        print(out)
        return 2
    res = {"ran_at": time.strftime("%Y-%m-%d %H:%M:%S"), "repo_head": sh(["git", "-C", "/repo", "rev-parse", "--short", "HEAD"])[1].strip()}
    try:
        env = dict(os.environ, PYTHONPATH=str(wt), VERIF_REPO=str(wt), PYTHONDONTWRITEBYTECODE="1")
        demo = sd / "demo.py"
        if demo.exists():
            res["demo_without_patch_rc"] = sh(["/venv/bin/python", str(demo)], cwd=wt, env=env)[0]
        rc, out = sh(["git", "-C", str(wt), "apply", str(sd / "patch.diff")])
        if rc:
            print("patch does not apply:", out)
            res["applies"] = False
            return 2
        res["applies"] = True
        if demo.exists():
            res["demo_with_patch_rc"] = sh(["/venv/bin/python", str(demo)], cwd=wt, env=env)[0]
        if not a.skip_tests:
            rc, out = sh("/venv/bin/python -m pytest -q -p no:cacheprovider tests 2>&1 | tail -1", cwd=wt, env=env)
            res["tests"] = out.strip()
            res["tests_unchanged"] = BASE_TESTS in out
        res["checks"] = {}
        scratch = Path(f"/var/tmp/fvm-ev-{os.getpid()}")
        scratch.mkdir(exist_ok=True)
        env2 = dict(env, VERIF_EVIDENCE_DIR=str(scratch / "evidence"), VERIF_WORK_DIR=str(scratch / "work"))
        for p in props:
            t0 = time.time()
            rc, out = sh([str(ROOT / "check"), p, "--tier", a.tier], cwd=ROOT, env=env2, timeout=7200)
            viol = [l for l in out.splitlines() if l.startswith("VIOLATION")]
            detail = [l.strip()[:300] for l in out.splitlines() if l.startswith("    {")][:2]
            res["checks"][p] = {"rc": rc, "violations": len(viol), "wall_s": round(time.time() - t0, 1), "example": detail,
                                "machinery_error": [l[:300] for l in out.splitlines() if l.startswith("MACHINERY-ERROR")][:1]}
            print(f"{sd.name} {p}: rc={rc} violations_listed={len(viol)} {detail[:1]}")
        shutil.rmtree(scratch, ignore_errors=True)
        res["caught_by"] = sorted(p for p, r in res["checks"].items() if r["rc"] == 1)
    finally:
        sh(["git", "-C", "/repo", "worktree", "remove", "--force", str(wt)])
        shutil.rmtree(wt, ignore_errors=True)
    meta.setdefault("runs", []).append(res)
    meta["detected"] = bool(res.get("caught_by"))
    (sd / "meta.json").write_text(json.dumps(meta, indent=1) + "\n")
    print(json.dumps({k: v for k, v in res.items() if k != "checks"}, indent=1))
    return 0


if __name__ == "__main__":
    sys.exit(main())
