"""TLC runner: runs a TLA+ module with a generated cfg, parses the statistics.

All scratch output goes under /verif/.work (git-ignored); nothing is written to /tmp.
"""
from __future__ import annotations

import json
import os
import re
import shutil
import subprocess
import time
from dataclasses import dataclass, field
from pathlib import Path

ROOT = Path(__file__).resolve().parent.parent
SPEC = ROOT / "spec"
WORK = Path(os.environ["VERIF_WORK_DIR"]) if os.environ.get("VERIF_WORK_DIR") else ROOT / ".work"
JAR = "/opt/veriftools/tla/tla2tools.jar"
DEPS = "/opt/veriftools/tla/CommunityModules-deps.jar"


class MachineryError(Exception):
    """The verification machinery itself failed (exit code 2)."""


@dataclass
class TLCResult:
    module: str
    ok: bool
    generated: int = 0
    distinct: int = 0
    depth: int = 0
    wall_s: float = 0.0
    stdout: str = ""
    violated: list = field(default_factory=list)  # names of violated invariants/properties
    prints: list = field(default_factory=list)  # PrintT payload lines (raw)
    coverage: dict = field(default_factory=dict)
    cfg: str = ""


def workdir(*parts: str) -> Path:
    p = WORK.joinpath(*parts)
    p.mkdir(parents=True, exist_ok=True)
    return p


_counter = [0]


def run_tlc(
    module: str,
    cfg: str,
    *,
    tag: str,
    env: dict | None = None,
    workers: int | str = 16,
    timeout: int = 1800,
    simulate: str | None = None,
    depth: int | None = None,
    coverage: bool = False,
    deadlock: bool = False,
    seed: int | None = None,
    expect_fail: bool = False,
    heap: str = "6g",
    dfs: bool = False,
) -> TLCResult:
    """Run TLC on spec/<module>.tla with the cfg text given. Raises MachineryError on
    parse/semantic errors or a crash; invariant violations are returned in .violated."""
    _counter[0] += 1
    wd = workdir("tlc", tag)
    cfg_path = wd / f"{module}.{_counter[0]}.cfg"
    cfg_path.write_text(cfg)
    meta = wd / f"meta{_counter[0]}"
    if meta.exists():
        shutil.rmtree(meta)
    cmd = [
        "java",
        "-XX:+UseParallelGC",
        f"-Xmx{heap}",
        "-Xss512m",
        "-Dtlc2.tool.fp.FPSet.impl=tlc2.tool.fp.OffHeapDiskFPSet",
    ]
    if dfs:
        cmd.append("-Dtlc2.tool.queue.IStateQueue=StateDeque")
    cmd += [
        "-cp",
        f"{JAR}:{DEPS}",
        "tlc2.TLC",
        "-workers",
        str(workers),
        "-metadir",
        str(meta),
        "-noGenerateSpecTE",
        "-config",
        str(cfg_path),
    ]
    if not deadlock:
        cmd += ["-deadlock"]
    if simulate:
        cmd += ["-simulate", simulate]
    if depth is not None:
        cmd += ["-depth", str(depth)]
    if coverage:
        cmd += ["-coverage", "1"]
    if seed is not None:
        cmd += ["-seed", str(seed)]
    cmd.append(f"{module}.tla")
    e = dict(os.environ)
    e.pop("JAVA_TOOL_OPTIONS", None)
    if env:
        e.update({k: str(v) for k, v in env.items()})
    t0 = time.time()
    try:
        p = subprocess.run(cmd, cwd=SPEC, env=e, capture_output=True, text=True, timeout=timeout)
    except subprocess.TimeoutExpired as ex:
        raise MachineryError(f"TLC timeout after {timeout}s on {module} ({tag})") from ex
    finally:
        shutil.rmtree(meta, ignore_errors=True)
    out = p.stdout + p.stderr
    (wd / f"{module}.{_counter[0]}.out").write_text(out)
    res = TLCResult(module=module, ok=False, stdout=out, wall_s=time.time() - t0, cfg=cfg)
    m = None
    for m in re.finditer(r"(\d+) states generated, (\d+) distinct states found", out):
        pass
    if m:
        res.generated, res.distinct = int(m.group(1)), int(m.group(2))
    m = re.search(r"The depth of the complete state graph search is (\d+)", out)
    if m:
        res.depth = int(m.group(1))
    res.violated = re.findall(r"Invariant (\S+) is violated", out) + re.findall(
        r"Action property (\S+) is violated", out
    )
    if "Temporal properties were violated" in out:
        res.violated.append("TEMPORAL")
    if re.search(r"Error: Deadlock reached", out):
        res.violated.append("DEADLOCK")
    if "The postcondition" in out and "violated" in out:
        res.violated.append("POSTCONDITION")
    if "Assumption" in out and "is false" in out:
        res.violated.append("ASSUME")
    hard = re.search(
        r"(Parsing or semantic analysis failed|TLC threw an unexpected exception|"
        r"Error: TLC encountered|was not able to|java\.lang\.\w*Error|"
        r"Error: In evaluation|Error: Evaluating|Error: The |Error: Attempted|Error: An |Error: Unknown)",
        out,
    )
    finished = ("Model checking completed" in out) or ("Finished in" in out) or bool(simulate)
    if hard and not res.violated:
        raise MachineryError(
            f"TLC error in {module} ({tag}); see {wd}/{module}.{_counter[0]}.out:\n"
            + "\n".join(out.splitlines()[-40:])
        )
    if coverage:
        for mm in re.finditer(r"<(\w+) line (\d+), col \d+ to line \d+, col \d+ of module (\w+)>: (\d+):(\d+)", out):
            res.coverage[f"{mm.group(3)}.{mm.group(1)}"] = (int(mm.group(4)), int(mm.group(5)))
    res.ok = finished and not res.violated and p.returncode == 0
    if not res.ok and not res.violated and not expect_fail:
        raise MachineryError(
            f"TLC did not finish cleanly on {module} ({tag}) rc={p.returncode}; see {wd}/{module}.{_counter[0]}.out:\n"
            + "\n".join(out.splitlines()[-30:])
        )
    return res


def run_apalache(module: str, init: str, inv: str, length: int, tag: str, timeout: int = 3000) -> dict:
    """apalache-mc check --init=.. --inv=.. --length=..; returns {ok, wall_s, outcome}. A tool failure is a MachineryError."""
    out = workdir("apalache", tag)
    t0 = time.time()
    cmd = ["apalache-mc", "check", f"--init={init}", f"--inv={inv}", "--next=Next", f"--length={length}", f"--out-dir={out}", f"{module}.tla"]
    e = dict(os.environ)
    e.pop("JAVA_TOOL_OPTIONS", None)
    try:
        p = subprocess.run(cmd, cwd=SPEC, env=e, capture_output=True, text=True, timeout=timeout)
    except subprocess.TimeoutExpired as ex:
        raise MachineryError(f"apalache timeout after {timeout}s on {module}") from ex
    finally:
        shutil.rmtree(out, ignore_errors=True)
    txt = p.stdout + p.stderr
    m = re.search(r"The outcome is: (\w+)", txt)
    if not m:
        raise MachineryError(f"apalache did not report an outcome on {module}: {txt[-400:]}")
    return {"ok": m.group(1) == "NoError", "outcome": m.group(1), "wall_s": round(time.time() - t0, 1), "init": init, "inv": inv, "length": length}


def simulate_emitted(module: str, cfg: str, tag: str, num: int, depth: int, seed: int, timeout: int = 1800) -> tuple:
    """Random behaviours of the specification (tlc -simulate): every state TLC evaluates on the way (the successors it chooses from
    included) is emitted by the EmitCase invariant of the module; returns (TLCResult, emitted records)."""
    out = workdir("sim", tag) / f"{module}.ndjson"
    out.unlink(missing_ok=True)
    r = run_tlc(module, cfg, tag=tag, env={"OUT_FILE": str(out)}, simulate=f"num={num}", depth=depth, workers=1, seed=seed, timeout=timeout)
    m = re.search(r"The number of states generated: (\d+)", r.stdout)
    if m:
        r.generated = int(m.group(1))
    recs = read_emitted(out) if out.exists() else []
    out.unlink(missing_ok=True)
    if not recs:
        raise MachineryError(f"simulation of {module} emitted nothing")
    return r, recs


def read_emitted(path: Path) -> list:
    """Read lines written from TLA+ by CSVWrite("%1$s", <<ToJson(x)>>, file)."""
    out = []
    if not path.exists():
        return out
    with open(path) as fh:
        for line in fh:
            line = line.strip()
            if not line:
                continue
            v = json.loads(line)
            if isinstance(v, str):
                v = json.loads(v)
            out.append(v)
    return out


def sany(module: str) -> None:
    p = subprocess.run(
        ["java", "-cp", f"{JAR}:{DEPS}", "tla2sany.SANY", f"{module}.tla"],
        cwd=SPEC,
        capture_output=True,
        text=True,
        timeout=120,
    )
    if p.returncode != 0 or "Semantic errors" in p.stdout or "Parse Error" in p.stdout or "Fatal errors" in p.stdout:
        raise MachineryError(f"SANY failed on {module}:\n{p.stdout[-3000:]}")
