"""gamma/alpha for the materializer family (C02 C03 C05 C06 C07 C10 ...)."""
from __future__ import annotations

import warnings

import numpy
import pandas

from .tlc import MachineryError, read_emitted, run_tlc, workdir

NAN = -7777777


def gamma_frame(fr: dict, index_kind: str = "default", text_dtype: str = "object"):
    """abstract frame -> pandas.DataFrame (numeric columns float64, text columns of the requested dtype)."""
    data = {}
    n = fr["n"]
    for name, c in fr["cols"].items():
        nulls = set(c["nulls"])
        if c["kind"] == "num":
            data[name] = pandas.Series([float("nan") if i + 1 in nulls else float(v) for i, v in enumerate(c["num"])], dtype="float64")
        else:
            vals = [None if i + 1 in nulls else v for i, v in enumerate(c["cat"])]
            if c["declared"]:
                data[name] = pandas.Series(pandas.Categorical(vals, categories=list(c["lv"])))
            elif text_dtype == "object":
                data[name] = pandas.Series(vals, dtype=object)
            else:
                data[name] = pandas.Series(vals, dtype=text_dtype)
    df = pandas.DataFrame(data)
    df.index = index_for(n, index_kind)
    return df


def arrow_table(df, nan_not_null: bool = False):
    """pandas frame -> pyarrow table; with nan_not_null the missing values of float columns stay NaN values instead of becoming
    Arrow nulls (both are 'missing' to pandas; an Arrow table can hold either)."""
    import pyarrow

    if not nan_not_null:
        return pyarrow.Table.from_pandas(df, preserve_index=False)
    cols = {}
    for name in df.columns:
        s = df[name]
        cols[name] = pyarrow.array(s.to_numpy(), from_pandas=False) if s.dtype.kind == "f" else pyarrow.array(s, from_pandas=True)
    return pyarrow.table(cols)


def index_for(n: int, kind: str):
    if kind == "default":
        return pandas.RangeIndex(n)
    if kind == "strings":
        return pandas.Index([f"r{i}" for i in range(n)])
    if kind == "unsorted":
        return pandas.Index([(7 * i + 3) % (n + 5) + 10 for i in range(n)][::-1])
    if kind == "nonunique":
        return pandas.Index([max(0, i - 1) if i % 2 else i for i in range(n)])  # 0,0,2,2,... duplicates
    raise ValueError(kind)


def quote(e: str) -> str:
    """a looked-up name that is not an identifier must be written in backticks"""
    import re

    if re.fullmatch(r"[A-Za-z_][\w.]*", e) or e[:1].isdigit() or "(" in e or e.startswith("{"):
        return e
    return "`" + e + "`"


def render_formula(written: list, icpt: bool) -> str:
    body = " + ".join(":".join(quote(e) for e in t) for t in written)
    if icpt:
        return body if body else "1"
    return "0 + " + body if body else "0"


def cell(v) -> int:
    f = float(v)
    if f != f:
        return NAN
    if f != int(f):
        return f  # non-integer: will not match an integer expectation
    return int(f)


def alpha_matrix(mm, output: str):
    """-> (names from the spec, cells as rows of ints, labels or None, index labels or None)"""
    spec = mm.model_spec
    names = list(spec.column_names)
    labels = None
    index = None
    if output == "pandas":
        labels = [str(c) for c in mm.columns]
        index = [x.item() if hasattr(x, "item") else x for x in mm.index]
        arr = mm.to_numpy()
    elif output == "sparse":
        arr = mm.toarray()
    else:
        arr = numpy.asarray(mm)
    cells = [[cell(v) for v in row] for row in arr.tolist()] if arr.size or arr.shape[0] else []
    if arr.shape[1] == 0:
        cells = [[] for _ in range(arr.shape[0])]
    return names, cells, labels, index, arr


def observe_build(formula: str, df, *, output="pandas", full_rank=True, na="drop", cluster=False, drop_rows=None, path="sugar",
                  materializer=None):
    """Run one build through the chosen entry point; returns dict(st, names, cells, labels, index, drop, exc, warnings)."""
    from formulaic import Formula, ModelSpec, model_matrix
    from formulaic.materializers import FormulaMaterializer

    kw = dict(output=output, ensure_full_rank=full_rank, na_action=na)
    if cluster:
        kw["cluster_by"] = "numerical_factors"
    if materializer:
        kw["materializer"] = materializer
    out = {"st": "OK"}
    with warnings.catch_warnings(record=True) as w:
        warnings.simplefilter("always")
        try:
            if path == "sugar":
                mm = model_matrix(formula, df, drop_rows=drop_rows, context={}, **kw)
            elif path == "formula":
                mm = Formula(formula).get_model_matrix(df, drop_rows=drop_rows, context={}, **kw)
            elif path == "spec":
                mm = ModelSpec(formula=Formula(formula), **kw).get_model_matrix(df, drop_rows=drop_rows, context={})
            elif path in ("attached", "sugar-attached"):
                # the spec attached to an earlier result of the same build, applied to the same data
                first = model_matrix(formula, df, drop_rows=set(drop_rows) if drop_rows is not None else None, context={}, **kw)
                spec = first.model_spec
                mm = spec.get_model_matrix(df, drop_rows=drop_rows, context={}) if path == "attached" else model_matrix(spec, df, drop_rows=drop_rows, context={})
            elif path == "materializer":
                cls = FormulaMaterializer.for_materializer(materializer) if materializer else FormulaMaterializer.for_data(df)
                kw.pop("materializer", None)
                mm = cls(df, context={}).get_model_matrix(formula, drop_rows=drop_rows, **kw)
            else:
                raise ValueError(path)
        except Exception as e:  # noqa
            out = {"st": "EXC", "cls": type(e).__name__, "msg": str(e)[:160]}
            mm = None
    out["warnings"] = sorted({type(x.message).__name__ for x in w if "formulaic" in type(x.message).__module__})
    if mm is not None:
        out["mm"] = mm
    out["drop"] = sorted(int(x) for x in drop_rows) if drop_rows is not None else None
    return out


def run_enumeration(ctx, tag: str, maxterms: int, frameset: str, invs: list, slice_mod: int = 1):
    """Run MC_Materialize with emission; returns (frames by id, cases)."""
    out = workdir(tag) / f"mat-{maxterms}-{frameset}.ndjson"
    out.unlink(missing_ok=True)
    cfg = ("SPECIFICATION Spec\nCONSTANTS\n"
           f"  MaxTerms = {maxterms}\n  Emit = TRUE\n  FrameSet = \"{frameset}\"\n  Slice = {ctx.seed % slice_mod}\n  SliceMod = {slice_mod}\n"
           + "".join(f"INVARIANT {i}\n" for i in invs) + "INVARIANT EmitCase\n")
    r = run_tlc("MC_Materialize", cfg, tag=tag, env={"OUT_FILE": str(out)}, timeout=3400)
    if r.violated:
        ctx.model_violation(r, "MC_Materialize")
    ctx.add_tlc(r, f"materializer model theorems ({', '.join(invs)}) + emission; <= {maxterms} terms, frames={frameset}")
    lines = read_emitted(out)
    frames = {x["frame_id"]: x["frame"] for x in lines if "frame_id" in x}
    cases = [x for x in lines if "written" in x]
    if slice_mod == 1 and len(cases) != r.distinct:
        raise MachineryError(f"emission incomplete: {len(cases)} of {r.distinct}")
    if not frames or not cases:
        raise MachineryError("no frames/cases emitted")
    out.unlink()
    return frames, cases
