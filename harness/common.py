"""Shared plumbing: run context, evidence, known findings, replay files, parallel replay."""
from __future__ import annotations

import hashlib
import json
import multiprocessing as mp
import os
import subprocess
import sys
import time
from dataclasses import dataclass, field
from pathlib import Path

from .tlc import ROOT, WORK, MachineryError, TLCResult, workdir

EVIDENCE = Path(os.environ["VERIF_EVIDENCE_DIR"]) if os.environ.get("VERIF_EVIDENCE_DIR") else ROOT / "evidence"
FINDINGS_FILE = ROOT / "known_findings.jsonl"
REPO = Path(os.environ.get("VERIF_REPO", "/repo"))


def repo_state() -> dict:
    def g(*a):
        try:
            return subprocess.run(["git", "-C", str(REPO), *a], capture_output=True, text=True, timeout=60).stdout
        except Exception:
            return ""

    head = g("rev-parse", "HEAD").strip()
    diff = g("diff", "HEAD")
    return {"head": head, "dirty_sha": hashlib.sha256(diff.encode()).hexdigest()[:16] if diff else ""}


def assert_repo_import() -> str:
    import formulaic

    f = os.path.realpath(formulaic.__file__)
    want = os.path.realpath(str(REPO))
    if not f.startswith(want + os.sep):
        raise MachineryError(f"formulaic imported from {f}, expected under {want}")
    return f


def load_findings(prop: str) -> list:
    out = []
    if FINDINGS_FILE.exists():
        for line in FINDINGS_FILE.read_text().splitlines():
            line = line.strip()
            if not line or line.startswith("#"):
                continue
            rec = json.loads(line)
            if rec.get("property") == prop and rec.get("status") == "finding":
                out.append(rec)
    return out


@dataclass
class Ctx:
    prop: str
    tier: str
    seed: int
    t0: float = field(default_factory=time.time)
    states: int = 0
    transitions: int = 0
    evaluations: int = 0
    traces: int = 0
    nontrivial: set = field(default_factory=set)
    samples: list = field(default_factory=list)
    violations: list = field(default_factory=list)
    known_hits: dict = field(default_factory=dict)
    notes: dict = field(default_factory=dict)
    tlc_runs: list = field(default_factory=list)
    findings: list = field(default_factory=list)
    matchers: dict = field(default_factory=dict)
    exhaustive: bool = False
    rule: str = ""
    trusted: list = field(default_factory=list)
    assumptions: list = field(default_factory=list)
    level: str = "model_checking"
    max_viol_lines: int = 25

    def __post_init__(self):
        self.findings = load_findings(self.prop)

    @property
    def quick(self) -> bool:
        return self.tier == "quick"

    def add_tlc(self, r: TLCResult, what: str) -> None:
        self.states += r.distinct
        self.transitions += r.generated
        self.tlc_runs.append(
            {"module": r.module, "what": what, "generated": r.generated, "distinct": r.distinct,
             "depth": r.depth, "wall_s": round(r.wall_s, 2)}
        )

    def model_violation(self, r: TLCResult, what: str) -> None:
        """An invariant of the specification itself failed in TLC: that is a defect of the
        model (machinery error), never a statement about the code."""
        raise MachineryError(f"model-level check failed: {what}: {r.violated}\n" + "\n".join(r.stdout.splitlines()[-40:]))

    def sample(self, x) -> None:
        if len(self.samples) < 6:
            self.samples.append(x)

    def violation(self, case: dict, detail: dict, kind: str = "") -> None:
        """Record a disagreement between the implementation and the specification. It is
        suppressed (KNOWN-FINDING) only if a listed finding of this property matches."""
        for f in self.findings:
            m = self.matchers.get(f.get("match", {}).get("kind"))
            if m is not None and m(f["match"], case, detail):
                k = f["id"]
                if k not in self.known_hits:
                    self.known_hits[k] = {"what": f["what"], "count": 0, "example": {"case": case, "detail": detail}}
                self.known_hits[k]["count"] += 1
                return
        self.violations.append({"kind": kind, "case": case, "detail": detail})

    def require(self, what: str, count: int, minimum: int = 1) -> None:
        """vacuity guard: a leg that judged fewer than `minimum` cases did not decide anything - a machinery failure, never a pass"""
        from .tlc import MachineryError

        self.notes.setdefault("legs_judged", {})[what] = count
        if count < minimum:
            raise MachineryError(f"{self.prop}: leg '{what}' judged only {count} cases (needs >= {minimum}): vacuous run")

    def finish(self) -> int:
        wall = time.time() - self.t0
        self.require("whole check: implementation executions", self.traces, 1)
        self.require("whole check: non-trivial cases", len(self.nontrivial), 1)
        rc = 0
        for k, v in self.known_hits.items():
            print(f"KNOWN-FINDING: property={self.prop} {k} {v['what']} (x{v['count']})")
        rdir = workdir("replay" if not os.environ.get("VERIF_EVIDENCE_DIR") else "replay-scratch")
        (rdir / f"{self.prop}-all.json").write_text(json.dumps(self.violations, default=str))
        for i, v in enumerate(self.violations):
            if i >= self.max_viol_lines:
                break
            p = rdir / f"{self.prop}-{i}.json"
            p.write_text(json.dumps({"property": self.prop, **v}, indent=1, default=str))
            print(f"VIOLATION property={self.prop} replay={p}")
            print("   ", json.dumps(v.get("detail", v), default=str)[:400])
            rc = 1
        if len(self.violations) > self.max_viol_lines:
            print(f"... {len(self.violations) - self.max_viol_lines} further violations not listed")
        cov = {
            "states": max(self.states, 0),
            "transitions": max(self.transitions, 0),
            "traces_validated_against_impl": self.traces,
            "evaluations": self.evaluations,
            "distinct_nontrivial": len(self.nontrivial),
            "rule": self.rule,
            "samples": self.samples or [{"note": "no sample recorded"}],
            "exhaustive": self.exhaustive,
            "trusted_base": self.trusted,
            "tlc_runs": self.tlc_runs,
            "known_findings_hit": {k: v["count"] for k, v in self.known_hits.items()},
            "repo": repo_state(),
            **self.notes,
        }
        ev = {
            "property_id": self.prop,
            "tier": self.tier,
            "seed": self.seed,
            "level": self.level,
            "coverage": cov,
            "assumptions": self.assumptions,
            "wall_s": round(wall, 2),
            "violations": len(self.violations),
        }
        EVIDENCE.mkdir(exist_ok=True)
        (EVIDENCE / f"{self.prop}.json").write_text(json.dumps(ev, indent=1, default=str) + "\n")
        print(
            f"{self.prop} tier={self.tier} seed={self.seed} states={self.states} "
            f"impl_executions={self.traces} violations={len(self.violations)} wall={wall:.1f}s"
        )
        return rc


# ---------------------------------------------------------------- parallel replay

_FN = None


def _init(fn_module, fn_name, repo):
    global _FN
    import importlib
    import warnings

    warnings.simplefilter("ignore")
    mod = importlib.import_module(fn_module)
    _FN = getattr(mod, fn_name)


def _call(chunk):
    return [_FN(c) for c in chunk]


def pmap(fn_module: str, fn_name: str, cases: list, procs: int = 16, chunk: int = 200) -> list:
    """Run harness function fn_module.fn_name(case) over cases in worker processes."""
    if not cases:
        return []
    if len(cases) < 64 or procs <= 1:
        _init(fn_module, fn_name, str(REPO))
        return _call(cases)
    chunks = [cases[i : i + chunk] for i in range(0, len(cases), chunk)]
    ctx = mp.get_context("fork")
    with ctx.Pool(min(procs, len(chunks)), initializer=_init, initargs=(fn_module, fn_name, str(REPO))) as pool:
        out = []
        for r in pool.imap(_call, chunks):
            out.extend(r)
    return out


def jhash(x) -> str:
    return hashlib.sha1(json.dumps(x, sort_keys=True, default=str).encode()).hexdigest()
